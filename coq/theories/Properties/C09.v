(** C09 — Object-store server keeps one version chain under concurrent clients.

    Proved: an inductive invariant ([CInv], Proofs/CloudInvP.v) of the system
    made of the object store and any number of client machines (add-version,
    get-child-version, add-snapshot, get-snapshot), preserved by every single
    object-store request of every client, by clients being dropped anywhere and
    by requests that take effect and whose reply is lost -- hence true in every
    state reachable by any schedule -- and its consequences: one accepted child
    per parent, accepted versions stay on the chain, get-child-version serves
    only the chain child with the submitted bytes (never a race loser), a
    rejection names a version that has been the latest.  Also the mechanism
    lemmas about single requests.  Cleanup is not part of this system (C10).
    Assumption written into the system: an add-version call names as parent the
    nil version or a version that has been [latest] (clients only learn version
    ids from a server), and new version ids are fresh. *)
From TC Require Import Model.Cloud Proofs.CloudP Proofs.CloudInvP.

(** [latest] changes only by a compare-and-swap whose expected value is the
    current one; so a version is committed only by a successful swap. *)
Theorem C09_latest_changes_only_by_cas : forall rank pagesz now st q,
  o_latest (ostore_step rank pagesz now st q).2 <> o_latest st ->
  exists old new, q = QCasLatest old new /\ o_latest st = old
                  /\ o_latest (ostore_step rank pagesz now st q).2 = Some new.
Proof. exact latest_changes_only_by_cas. Qed.

(** Once a swap from [old] has succeeded, any other swap expecting [old] fails:
    at most one child per parent is accepted. *)
Theorem C09_one_swap_per_parent : forall rank pagesz now st old new1 new2,
  new1 <> default new1 old -> Some new1 <> old ->
  (ostore_step rank pagesz now st (QCasLatest old new1)).1 = PBool true ->
  (ostore_step rank pagesz now (ostore_step rank pagesz now st (QCasLatest old new1)).2
               (QCasLatest old new2)).1 = PBool false.
Proof. exact cas_excludes. Qed.

(** The add-version routine swaps only at one point, from exactly the value it
    read first, which is its parent whenever a latest version existed ... *)
Theorem C09_swap_shape : forall (c : cpc) q,
  cl_next c = inl q -> (exists old new, q = QCasLatest old new) ->
  exists p c0 pl l, c = A2 p c0 pl l /\ q = QCasLatest l c0.
Proof. exact add_version_swap_shape. Qed.

Theorem C09_parent_is_latest : forall rank threshold p c pl r l,
  cl_resume rank threshold (A0 p c pl) r = A1 p c pl l -> forall l0, l = Some l0 -> l0 = p.
Proof. exact add_version_parent_is_latest. Qed.

(** ... reports success only after that swap succeeded, and after a failed swap
    goes on to delete its own object. *)
Theorem C09_ok_only_after_swap : forall rank threshold c r c0 u,
  cl_resume rank threshold c r = CDone (CAddOk c0 u) -> c = A5 c0.
Proof. exact add_version_ok_only_after_swap. Qed.

Theorem C09_swap_outcomes : forall rank threshold p c0 pl l,
  cl_resume rank threshold (A2 p c0 pl l) (PBool true) = A5 c0
  /\ cl_resume rank threshold (A2 p c0 pl l) (PBool false) = A3 p c0.
Proof. exact swap_success_leads_to_ok. Qed.

(** Version objects appear only by a put and disappear only by a delete. *)
Theorem C09_objects_change_only_by_put_and_delete : forall rank pagesz now st q,
  o_vers (ostore_step rank pagesz now st q).2 = o_vers st
  \/ (exists p c pl, q = QPutVer p c pl /\ o_vers (ostore_step rank pagesz now st q).2 = <[(p, c) := (pl, now)]> (o_vers st))
  \/ (exists p c, q = QDelVer p c /\ o_vers (ostore_step rank pagesz now st q).2 = delete (p, c) (o_vers st)).
Proof. exact vers_change. Qed.

(** The invariant holds in every state reachable by any schedule of any number
    of clients, with drops and lost replies anywhere. *)
Theorem C09_invariant_every_schedule : forall rank pagesz threshold (evs : list cev),
  CInv (fold_left (cstep rank pagesz threshold) evs csys0).
Proof. exact CInv_run. Qed.

(** Two versions on the chain stored under the same parent are the same
    version: at most one child per parent is ever accepted. *)
Theorem C09_one_child_per_parent : forall rank pagesz threshold evs p c1 c2,
  let s := fold_left (cstep rank pagesz threshold) evs csys0 in
  c1 ∈ c_hist s -> c2 ∈ c_hist s ->
  is_Some (o_vers (c_store s) !! (p, c1)) -> is_Some (o_vers (c_store s) !! (p, c2)) -> c1 = c2.
Proof. exact one_child_per_parent. Qed.

(** A version whose add-version call returned success is on the chain in every
    later state. *)
Theorem C09_accepted_stays_on_chain : forall rank pagesz threshold evs more pc c u,
  (pc, CAddOk c u) ∈ c_results (fold_left (cstep rank pagesz threshold) evs csys0) ->
  c ∈ c_hist (fold_left (cstep rank pagesz threshold) (evs ++ more) csys0).
Proof. exact accepted_stays_on_chain. Qed.

(** get-child-version returns only the chain child of the requested parent,
    with the bytes submitted under that id; a version that lost the race is
    never served. *)
Theorem C09_served_is_chain_child : forall rank pagesz threshold evs pc c pl,
  let s := fold_left (cstep rank pagesz threshold) evs csys0 in
  (pc, CVersion c pl) ∈ c_results s ->
  exists p k, pc = G3 p c /\ c_sub s !! c = Some (p, pl)
              /\ c_hist s !! k = Some c
              /\ (forall k', k = S k' -> c_hist s !! k' = Some p) /\ (k = 0%nat -> p = 0%N).
Proof. exact served_is_chain_child. Qed.

Theorem C09_expected_was_latest : forall rank pagesz threshold evs pc l,
  (pc, CExpected l) ∈ c_results (fold_left (cstep rank pagesz threshold) evs csys0) ->
  l = 0%N \/ l ∈ c_hist (fold_left (cstep rank pagesz threshold) evs csys0).
Proof. exact expected_was_latest. Qed.

(** history and results only grow *)
Theorem C09_history_only_grows : forall rank pagesz threshold evs more,
  c_hist (fold_left (cstep rank pagesz threshold) evs csys0)
    `prefix_of` c_hist (fold_left (cstep rank pagesz threshold) (evs ++ more) csys0)
  /\ (forall x, x ∈ c_results (fold_left (cstep rank pagesz threshold) evs csys0) ->
                x ∈ c_results (fold_left (cstep rank pagesz threshold) (evs ++ more) csys0)).
Proof. exact run_grows. Qed.


Print Assumptions C09_latest_changes_only_by_cas.
Print Assumptions C09_one_swap_per_parent.
Print Assumptions C09_swap_shape.
Print Assumptions C09_parent_is_latest.
Print Assumptions C09_ok_only_after_swap.
Print Assumptions C09_swap_outcomes.
Print Assumptions C09_objects_change_only_by_put_and_delete.
Print Assumptions C09_invariant_every_schedule.
Print Assumptions C09_one_child_per_parent.
Print Assumptions C09_accepted_stays_on_chain.
Print Assumptions C09_served_is_chain_child.
Print Assumptions C09_expected_was_latest.
Print Assumptions C09_history_only_grows.
