(** C18 — Reading tasks never panics, whatever the stored data.
    The model of the readers (Model/Task.v) is total by construction: every
    conversion that can fail in the code (integer parsing, calendar range,
    tag syntax, uuid syntax) is an [option] whose [None] branch skips the
    item.  The theorems state what is read from uninterpretable content. *)
From TC Require Import Model.Task Proofs.TaskP.
From Coq Require Import Strings.String.

(** A stored value is read as a timestamp exactly when it is an integer in
    Rust's i64 syntax inside the representable range; anything else -- text,
    out-of-range or astronomically large numbers -- reads as absent. *)
Theorem C18_get_timestamp_spec : forall ts_min ts_max (t : gmap (list N) (list N)) p,
  get_timestamp ts_min ts_max t p =
  match t !! p with
  | Some v => match parse_i64 v with
              | Some z => if (Z.leb ts_min z && Z.leb z ts_max)%bool then Some z else None
              | None => None
              end
  | None => None
  end.
Proof. exact get_timestamp_spec. Qed.

Theorem C18_timestamps_in_range : forall ts_min ts_max t p z,
  get_timestamp ts_min ts_max t p = Some z -> (ts_min <= z <= ts_max)%Z.
Proof. exact get_timestamp_in_range. Qed.

Theorem C18_parse_i64_range : forall s z,
  parse_i64 s = Some z -> (-9223372036854775808 <= z <= 9223372036854775807)%Z.
Proof. exact parse_i64_range. Qed.

(** Annotation keys whose suffix is not a representable time are skipped. *)
Theorem C18_annotations_in_range : forall ts_min ts_max t z d,
  (z, d) ∈ annotations ts_min ts_max t -> (ts_min <= z <= ts_max)%Z.
Proof. exact annotations_in_range. Qed.

(** Unknown statuses are preserved as unknown. *)
Theorem C18_status_unknown : forall v,
  v <> s2l "pending" -> v <> s2l "completed" -> v <> s2l "deleted" -> v <> s2l "recurring" ->
  status_of v = StUnknown v.
Proof. exact status_unknown. Qed.

Print Assumptions C18_get_timestamp_spec.
Print Assumptions C18_timestamps_in_range.
Print Assumptions C18_parse_i64_range.
Print Assumptions C18_annotations_in_range.
Print Assumptions C18_status_unknown.
