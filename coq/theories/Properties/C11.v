(** C11 — A failure inside a server's add-version leaves the backend usable.
    Proved: for the object-store server, a failure at any of add-version's
    requests leaves either no trace that matters or a committed version -- the
    version object is invisible to the protocol until the compare-and-swap, and
    after it the version is committed whatever happens to the reply.  The local
    and git backends are substrates (SQLite, git): their crash points are
    covered by failpoints in the correspondence check. *)
From TC Require Import Model.Cloud Proofs.CloudP Model.ChainSpec Proofs.ChainSpecP.

(** Before the swap, add-version has changed nothing but (possibly) put its own
    version object: [latest] is untouched by every request other than the swap. *)
Theorem C11_latest_untouched_before_swap : forall rank pagesz now st q,
  (forall old new, q <> QCasLatest old new) ->
  o_latest (ostore_step rank pagesz now st q).2 = o_latest st.
Proof. exact latest_untouched_before_swap. Qed.

(** The swap is the commit point: it either installs the new version as
    [latest] (whether or not the client hears about it) or changes nothing. *)
Theorem C11_swap_is_atomic : forall rank pagesz now st old new,
  let st' := (ostore_step rank pagesz now st (QCasLatest old new)).2 in
  (o_latest st = old /\ o_latest st' = Some new /\ o_vers st' = o_vers st /\ o_snaps st' = o_snaps st)
  \/ (o_latest st <> old /\ st' = st).
Proof. exact swap_is_atomic. Qed.

(** After a restart the protocol state is the before- or the after-state: at
    the level of the protocol an interrupted add-version is either an accepted
    version or no call at all, and both leave a chain. *)
Theorem C11_either_way_a_chain : forall s c,
  linked None (cs_versions s) -> linked None (cs_versions (chain_step s c).2).
Proof. exact chain_stays_linked. Qed.

Print Assumptions C11_latest_untouched_before_swap.
Print Assumptions C11_swap_is_atomic.
Print Assumptions C11_either_way_a_chain.
