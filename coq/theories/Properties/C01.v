(** C01 — Replicas converge after any history of edits and syncs.
    Only statements, [exact]s and [Print Assumptions] live here. *)
From TC Require Import Model.Sync Proofs.TransformP Proofs.RebaseP Proofs.SyncP.

(** The transform completes the diamond on every state where both operations
    are valid, and keeps them valid. *)
Theorem C01_tp1 : forall (s : db) (a b : sop),
  validb s a = true -> validb s b = true ->
  let '(a', b') := transform a b in
  applyo (apply s a) b' = applyo (apply s b) a'
  /\ valido (apply s a) b' = true /\ valido (apply s b) a' = true.
Proof. exact tp1. Qed.

(** Rebasing any valid list of local operations over any valid version closes
    the diamond for whole lists. *)
Theorem C01_rebase_diamond : forall (v l : list sop) (s : db),
  valid_seqb s v = true -> valid_seqb s l = true ->
  let '(v', l') := rebase transform v l in
  applyl (applyl s l) v' = applyl (applyl s v) l'
  /\ valid_seqb (applyl s v) l' = true /\ valid_seqb (applyl s l) v' = true.
Proof. exact rebase_diamond. Qed.

(** The replica invariant holds after every history: any number of replicas,
    any commits of valid batches, sync requests of different replicas in any
    interleaving, abandoned syncs and lost replies, any batching size function
    and limit (so also when pending changes are sent as several versions). *)
Theorem C01_invariant : forall (sz : sop -> N) (limit : N) (n : nat) (h : list event),
  wf_history sz limit (sys0 n) h = true -> Inv (run sz limit (sys0 n) h).
Proof. intros. apply run_inv; [apply Inv_init|assumption]. Qed.

(** Every replica that has nothing left to send and whose base is the
    server's latest version holds exactly the replay of the server's versions,
    in order, on the empty task set; hence all such replicas are equal. *)
Theorem C01_converge : forall (sz : sop -> N) (limit : N) (n : nat) (h : list event) i nd,
  wf_history sz limit (sys0 n) h = true ->
  nodes (run sz limit (sys0 n) h) !! i = Some nd ->
  r_pend (n_rep nd) = [] ->
  r_base (n_rep nd) = length (chain (srv (run sz limit (sys0 n) h))) ->
  r_tasks (n_rep nd) = applyl ∅ (concat (chain (srv (run sz limit (sys0 n) h)))).
Proof. exact converge. Qed.

Print Assumptions C01_tp1.
Print Assumptions C01_rebase_diamond.
Print Assumptions C01_invariant.
Print Assumptions C01_converge.
