(** C02 — Convergence survives racing syncs and rejected versions. *)
From TC Require Import Model.Sync Proofs.TransformP Proofs.RebaseP Proofs.SyncP Proofs.SyncP2.

(** Histories [list event] contain the individual server requests of all
    replicas' syncs in any order ([EStep i]), so the invariant and convergence
    hold for every interleaving at request granularity. *)
Theorem C02_invariant_every_schedule :
  forall (sz : sop -> N) (limit : N) (n : nat) (h : list event),
  wf_history sz limit (sys0 n) h = true -> Inv (run sz limit (sys0 n) h).
Proof. intros. apply run_inv; [apply Inv_init|assumption]. Qed.

Theorem C02_converge_concurrent :
  forall (sz : sop -> N) (limit : N) (n : nat) (h : list event) i nd,
  wf_history sz limit (sys0 n) h = true ->
  nodes (run sz limit (sys0 n) h) !! i = Some nd ->
  r_pend (n_rep nd) = [] ->
  r_base (n_rep nd) = length (chain (srv (run sz limit (sys0 n) h))) ->
  r_tasks (n_rep nd) = applyl ∅ (concat (chain (srv (run sz limit (sys0 n) h)))).
Proof. exact converge. Qed.

(** Against the abstract server every sync that finishes, in any schedule,
    finishes successfully: never out-of-sync, never a protocol error. *)
Theorem C02_no_out_of_sync :
  forall (sz : sop -> N) (limit : N) (n : nat) (h : list event) i r,
  wf_history sz limit (sys0 n) h = true ->
  In (i, r) (results (run sz limit (sys0 n) h)) -> r = SyncOk.
Proof. exact no_out_of_sync. Qed.

(** What a (re)try pushes is a prefix of the list as rebased so far ... *)
Theorem C02_push_is_rebased : forall (sz : sop -> N) (limit : N) (x : sst) b ops,
  sync_next sz limit x = inl (RAddVersion b ops) ->
  b = x_base x /\ ops `prefix_of` x_local x.
Proof. exact push_is_prefix_of_rebased. Qed.

(** ... and that list only ever loses operations during a sync: one that lost
    a conflict (was dropped by a rebase) is never sent by a later retry. *)
Theorem C02_retry_never_resurrects : forall (sz : sop -> N) (limit : N) (x : sst) (p : resp),
  sublist (x_local (sync_resume sz limit x p)) (x_local x).
Proof. exact sync_resume_local_sublist. Qed.

Theorem C02_rebase_only_drops : forall (v l : list sop),
  sublist (rebase transform v l).2 l.
Proof. exact rebase_sublist. Qed.

Print Assumptions C02_invariant_every_schedule.
Print Assumptions C02_converge_concurrent.
Print Assumptions C02_no_out_of_sync.
Print Assumptions C02_push_is_rebased.
Print Assumptions C02_retry_never_resurrects.
Print Assumptions C02_rebase_only_drops.
