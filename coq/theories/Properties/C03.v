(** C03 — No lost updates; documented conflict winners, independent of sync order. *)
From TC Require Import Model.Rebase Proofs.TransformP Proofs.RebaseP Proofs.ConflictP Proofs.SyncP2.

(** The complete conflict table: on operations valid in a common state each
    operation survives the transformation unless the other one has the same
    effect (two creations, two deletions, two identical updates) or beats it
    (a deletion beats an update of the task; of two updates of one property the
    greater (timestamp, value) beats the other).  In particular operations on
    different tasks or different properties never affect each other. *)
Theorem C03_transform_table : forall (s : db) (a b : sop),
  validb s a = true -> validb s b = true ->
  transform a b =
  (if same_effect a b || beats b a then None else Some a,
   if same_effect a b || beats a b then None else Some b).
Proof. exact transform_table. Qed.

(** List level: a local operation survives the rebase over a pulled version
    unless some operation of that version beats it or has the same effect. *)
Theorem C03_kept_or_documented : forall (v l : list sop) (s : db) (lo : sop),
  valid_seqb s v = true -> valid_seqb s l = true ->
  In lo l ->
  (forall so, In so v -> same_effect so lo = false /\ beats so lo = false) ->
  In lo (rebase transform v l).2.
Proof. exact rebase_kept. Qed.

(** and nothing is ever invented or changed by a rebase *)
Theorem C03_rebase_only_drops : forall (v l : list sop), sublist (rebase transform v l).2 l.
Proof. exact rebase_sublist. Qed.

(** The winner does not depend on who transforms: the table is symmetric ... *)
Theorem C03_transform_symmetric : forall a b, transform b a = swap_pair (transform a b).
Proof. exact transform_symmetric. Qed.

(** ... the whole grid is ... *)
Theorem C03_rebase_symmetric : forall l v,
  rebase transform l v = swap_pair (rebase transform v l).
Proof. exact rebase_symmetric. Qed.

(** ... so two replicas with arbitrary concurrent valid changes reach the same
    state whichever synchronises first. *)
Theorem C03_order_independent_2 : forall (s : db) (la lb : list sop),
  valid_seqb s la = true -> valid_seqb s lb = true ->
  applyl (applyl s la) (rebase transform la lb).2
  = applyl (applyl s lb) (rebase transform lb la).2.
Proof. exact order_independent_2. Qed.

(** A change made after seeing another one overrides it regardless of timestamps. *)
Theorem C03_causal_override : forall s u p va ta vb tb,
  apply (apply s (SUpdate u p va ta)) (SUpdate u p vb tb) = apply s (SUpdate u p vb tb).
Proof. exact sequential_override. Qed.

(** Statement kept visible, NOT proved here (see DESIGN.md section 9): the
    converged state of three replicas is the same for all six sync orders.
    It is tested exhaustively on small scopes by the correspondence check. *)
Definition C03_order_independent_3_statement : Prop :=
  forall (s : db) (la lb lc : list sop),
  valid_seqb s la = true -> valid_seqb s lb = true -> valid_seqb s lc = true ->
  let after2 x y := (rebase transform x y).2 in
  (* A, B, C  versus  B, A, C: C rebases over the two versions on the chain *)
  applyl (applyl (applyl s la) (after2 la lb))
         (rebase transform (after2 la lb) (rebase transform la lc).2).2
  = applyl (applyl (applyl s lb) (after2 lb la))
         (rebase transform (after2 lb la) (rebase transform lb lc).2).2.

Print Assumptions C03_transform_table.
Print Assumptions C03_kept_or_documented.
Print Assumptions C03_rebase_only_drops.
Print Assumptions C03_transform_symmetric.
Print Assumptions C03_rebase_symmetric.
Print Assumptions C03_order_independent_2.
Print Assumptions C03_causal_override.
