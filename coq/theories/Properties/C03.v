(** C03 — No lost updates; documented conflict winners, independent of sync order. *)
From TC Require Import Model.Rebase Proofs.TransformP Proofs.RebaseP Proofs.ConflictP Proofs.SyncP2 Proofs.Tp2P.

(** The complete conflict table: on operations valid in a common state each
    operation survives the transformation unless the other one has the same
    effect (two creations, two deletions, two identical updates) or beats it
    (a deletion beats an update of the task; of two updates of one property the
    greater (timestamp, value) beats the other).  In particular operations on
    different tasks or different properties never affect each other. *)
Theorem C03_transform_table : forall (s : db) (a b : sop),
  validb s a = true -> validb s b = true ->
  transform a b =
  (if same_effect a b || beats b a then None else Some a,
   if same_effect a b || beats a b then None else Some b).
Proof. exact transform_table. Qed.

(** List level: a local operation survives the rebase over a pulled version
    unless some operation of that version beats it or has the same effect. *)
Theorem C03_kept_or_documented : forall (v l : list sop) (s : db) (lo : sop),
  valid_seqb s v = true -> valid_seqb s l = true ->
  In lo l ->
  (forall so, In so v -> same_effect so lo = false /\ beats so lo = false) ->
  In lo (rebase transform v l).2.
Proof. exact rebase_kept. Qed.

(** and nothing is ever invented or changed by a rebase *)
Theorem C03_rebase_only_drops : forall (v l : list sop), sublist (rebase transform v l).2 l.
Proof. exact rebase_sublist. Qed.

(** The winner does not depend on who transforms: the table is symmetric ... *)
Theorem C03_transform_symmetric : forall a b, transform b a = swap_pair (transform a b).
Proof. exact transform_symmetric. Qed.

(** ... the whole grid is ... *)
Theorem C03_rebase_symmetric : forall l v,
  rebase transform l v = swap_pair (rebase transform v l).
Proof. exact rebase_symmetric. Qed.

(** ... so two replicas with arbitrary concurrent valid changes reach the same
    state whichever synchronises first. *)
Theorem C03_order_independent_2 : forall (s : db) (la lb : list sop),
  valid_seqb s la = true -> valid_seqb s lb = true ->
  applyl (applyl s la) (rebase transform la lb).2
  = applyl (applyl s lb) (rebase transform lb la).2.
Proof. exact order_independent_2. Qed.

(** A change made after seeing another one overrides it regardless of timestamps. *)
Theorem C03_causal_override : forall s u p va ta vb tb,
  apply (apply s (SUpdate u p va ta)) (SUpdate u p vb tb) = apply s (SUpdate u p vb tb).
Proof. exact sequential_override. Qed.

(** Three replicas with arbitrary concurrent valid lists: the converged state is
    the same for all six orders in which they synchronise.  [sync3 s x y z] is
    the state after x, y, z synchronised in this order (the chain holds x, then
    y rebased over it, then z rebased over both).  Proved from TP2 for single
    operations valid in a common state (Proofs/Tp2P.v, [tp2]) lifted to lists
    through the residual algebra of [rebase] ([cube_all]). *)
Theorem C03_tp2 : forall (s : db) (a b c : sop),
  validb s a = true -> validb s b = true -> validb s c = true ->
  (tfo (transform c a).1 (transform b a).1).1 = (tfo (transform c b).1 (transform a b).1).1.
Proof. exact tp2. Qed.

Theorem C03_order_independent_3 : forall (s : db) (la lb lc : list sop),
  valid_seqb s la = true -> valid_seqb s lb = true -> valid_seqb s lc = true ->
  sync3 s la lb lc = sync3 s la lc lb /\ sync3 s la lb lc = sync3 s lb la lc
  /\ sync3 s la lb lc = sync3 s lb lc la /\ sync3 s la lb lc = sync3 s lc la lb
  /\ sync3 s la lb lc = sync3 s lc lb la.
Proof. exact order_independent_3. Qed.

(** [sync3] in the vocabulary of [rebase] *)
Theorem C03_sync3_is_rebase : forall (s : db) (la lb lc : list sop),
  sync3 s la lb lc =
  applyl (applyl (applyl s la) (rebase transform la lb).2)
         (rebase transform (rebase transform la lb).2 (rebase transform la lc).2).2.
Proof. exact sync3_rebase. Qed.


Print Assumptions C03_transform_table.
Print Assumptions C03_kept_or_documented.
Print Assumptions C03_rebase_only_drops.
Print Assumptions C03_transform_symmetric.
Print Assumptions C03_rebase_symmetric.
Print Assumptions C03_order_independent_2.
Print Assumptions C03_causal_override.
Print Assumptions C03_tp2.
Print Assumptions C03_order_independent_3.
Print Assumptions C03_sync3_is_rebase.
