(** C06 — The SQLite replica store is crash-atomic and durable.
    Proved: the transaction discipline of the storage contract (calls on a
    private copy, commit installs, anything else discards) gives before-or-after
    for every interruption point, for any storage state and call alphabet (in
    particular the storage specification of C16, whose SQL refinement is proved
    there).  That SQLite honours this contract under process kills is a runtime
    fact: it is sampled by the fault enumeration and kill runs of the check. *)
From TC Require Import Model.Txn Proofs.TxnP.

Theorem C06_uncommitted_invisible : forall (S C : Type) (step : S -> C -> S) t calls,
  persistent (trun step t (TBegin :: map TCall calls)) = persistent t.
Proof. exact @uncommitted_invisible. Qed.

Theorem C06_abandon_leaves_before_state : forall (S C : Type) (step : S -> C -> S) t calls k,
  persistent (trun step t (action (take k calls) TAbandon)) = persistent t.
Proof. exact @abandon_leaves_before_state. Qed.

Theorem C06_commit_installs_after_state : forall (S C : Type) (step : S -> C -> S) t calls,
  persistent (trun step t (action calls TCommit)) = fold_left step calls (persistent t)
  /\ working (trun step t (action calls TCommit)) = None.
Proof. exact @commit_installs_after_state. Qed.

Theorem C06_crash_before_or_after : forall (S C : Type) (step : S -> C -> S) t calls k finish,
  finish = TAbandon \/ (finish = TCommit /\ k = length calls) ->
  let p := persistent (trun step t (action (take k calls) finish)) in
  p = persistent t \/ p = fold_left step calls (persistent t).
Proof. exact @crash_before_or_after. Qed.

Print Assumptions C06_uncommitted_invisible.
Print Assumptions C06_abandon_leaves_before_state.
Print Assumptions C06_commit_installs_after_state.
Print Assumptions C06_crash_before_or_after.
