(** C12 — Snapshots reproduce exactly the state of their version. *)
From TC Require Import Model.Sync Proofs.RebaseP Proofs.SyncP Proofs.SyncP2 Proofs.WireP.

(** Every snapshot a replica uploads is the state obtained by replaying the
    chain up to the version it is uploaded for ... *)
Theorem C12_snapshot_request_is_chain_state :
  forall (sz : sop -> N) (limit : N) (c : list (list sop)) (x : sst) (v : nat) (d : db),
  sst_inv c x -> sync_next sz limit x = inl (RAddSnapshot v d) ->
  v = x_base x /\ d = cstate c v.
Proof. exact snapshot_request_is_chain_state. Qed.

(** ... and so is, after any history (interleavings, faults, several versions
    per sync, foreign versions), the snapshot the server holds. *)
Theorem C12_stored_snapshot_is_chain_state :
  forall (sz : sop -> N) (limit : N) (n : nat) (h : list event) v d,
  wf_history sz limit (sys0 n) h = true ->
  snap (srv (run sz limit (sys0 n) h)) = Some (v, d) ->
  (v <= length (chain (srv (run sz limit (sys0 n) h))))%nat
  /\ d = cstate (chain (srv (run sz limit (sys0 n) h))) v.
Proof.
  intros sz limit n h v d Hwf. apply stored_snapshot_is_chain_state.
  apply run_inv; [apply Inv_init|exact Hwf].
Qed.

(** A snapshot is produced iff the version was accepted, the server's stated
    urgency reaches the replica's threshold (low, or high when avoiding
    snapshots) and no later batch is waiting. *)
Theorem C12_snapshot_gate : forall (sz : sop -> N) (limit : N) (x : sst) (p : resp),
  x_pc (sync_resume sz limit x p) = AtSnapUp <->
  exists v g, x_pc x = AtPush /\ p = PAddOk v g
    /\ drop (length (take_batch sz limit (x_local x))) (x_local x) = []
    /\ urg_geb g (if x_avoid x then UHigh else ULow) = true.
Proof. exact snapshot_gate. Qed.

(** A new, empty replica that starts from a snapshot and then applies the later
    versions ends, like every replica, in the replay of the whole chain. *)
Theorem C12_start_from_snapshot :
  forall (sz : sop -> N) (limit : N) (n : nat) (h : list event) i nd,
  wf_history sz limit (sys0 n) h = true ->
  nodes (run sz limit (sys0 n) h) !! i = Some nd ->
  r_pend (n_rep nd) = [] ->
  r_base (n_rep nd) = length (chain (srv (run sz limit (sys0 n) h))) ->
  r_tasks (n_rep nd) = applyl ∅ (concat (chain (srv (run sz limit (sys0 n) h)))).
Proof. exact converge. Qed.

(** Only an entirely empty replica asks for a snapshot ... *)
Theorem C12_only_empty_asks : forall (r : replica) (avoid wst : bool),
  x_pc (start_sync r avoid wst) = AtSnap ->
  r_tasks r = ∅ /\ r_pend r = [] /\ r_base r = 0 /\ wst = true.
Proof.
  intros r avoid wst H. apply empty_replica. unfold start_sync in H. cbn in H.
  destruct (rep_is_empty r wst); [reflexivity|discriminate].
Qed.

(** ... and a sync that is past that point never replaces the tasks: they only
    change by applying operations. *)
Theorem C12_nonempty_never_replaced : forall (sz : sop -> N) (limit : N) (x : sst) (p : resp),
  x_pc x <> AtSnap ->
  x_pc (sync_resume sz limit x p) <> AtSnap
  /\ exists l, x_tasks (sync_resume sz limit x p) = applyl (x_tasks x) l.
Proof. exact never_replaced. Qed.

Print Assumptions C12_snapshot_request_is_chain_state.
Print Assumptions C12_stored_snapshot_is_chain_state.
Print Assumptions C12_snapshot_gate.
Print Assumptions C12_start_from_snapshot.
Print Assumptions C12_only_empty_asks.
Print Assumptions C12_nonempty_never_replaced.
