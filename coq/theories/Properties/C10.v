(** C10 — Object-store cleanup never deletes history that is still needed.
    The theorems cover every decision cleanup takes from what it read (the
    value of [latest], read first; the listing of versions; the listing of
    snapshots), for all listings.  Interleavings with other clients are covered
    by the correspondence check; see DESIGN.md for the one known finding. *)
From TC Require Import Model.Cloud Proofs.CloudP.

(** (a) A version is deleted as garbage only if its parent has a different
    child on the chain known from [latest]: it lost the race for that parent
    and can never be committed.  Children of [latest] and anything added since
    are never touched. *)
Theorem C10_losers_have_lost : forall rank vers chain p c,
  (p, c) ∈ losers rank vers chain ->
  (exists t, (p, c, t) ∈ vers) /\ exists c', chain_child chain p = Some c' /\ c' <> c.
Proof. exact losers_have_lost. Qed.

(** (b) A snapshot is deleted as redundant only if its version is on the known
    chain strictly before the newest snapshot on that chain. *)
Theorem C10_old_snapshots_are_older : forall l chain snaps s v,
  v ∈ old_snapshots l chain snaps s ->
  v ∈ snaps /\ v ∈ tail (drop_until s (chain_versions l chain)).
Proof. exact old_snapshots_are_older. Qed.

Theorem C10_latest_snapshot_on_chain : forall l chain snaps s,
  latest_snapshot l chain snaps = Some s -> s ∈ snaps /\ s ∈ chain_versions l chain.
Proof. exact latest_snapshot_on_chain. Qed.

(** (c) A version is deleted for its age only if it is older than the
    retention threshold and lies on the known chain (at or before the newest
    on-chain snapshot: the deletions walk backwards from it). *)
Theorem C10_old_versions_are_covered : forall threshold vers chain s p c,
  (p, c) ∈ old_versions threshold vers chain s ->
  (exists t, creation_of vers c = Some t /\ (t < threshold)%N) /\ (c, p) ∈ chain.
Proof. exact old_versions_are_covered. Qed.

Print Assumptions C10_losers_have_lost.
Print Assumptions C10_old_snapshots_are_older.
Print Assumptions C10_latest_snapshot_on_chain.
Print Assumptions C10_old_versions_are_covered.
