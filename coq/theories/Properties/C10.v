(** C10 — Object-store cleanup never deletes history that is still needed.

    Two layers.  (1) Every decision a cleanup takes from what it read (the
    value of [latest], read first; the listing of versions; the listing of
    snapshots), for all listings.  (2) The inductive invariant [CInv] of
    Proofs/CleanupInvP.v over ALL schedules of any number of clients running
    add-version, get-child-version, add-/get-snapshot and cleanup one
    object-store request at a time, with drops and lost replies anywhere: the
    chain a cleanup reconstructs from its (possibly stale, paged) listing is a
    piece of the true chain; what it deletes as a race loser can never join
    the chain (and an add-version whose object was removed loses its swap);
    every chain version from the cut onward keeps its object; the cut lies
    behind a snapshot that is still stored -- so a fresh replica can
    reconstruct the latest state and a replica based on a retained version
    finds the next one.  Which of several stored snapshots get-snapshot hands
    out is not part of these theorems: see the known finding in DESIGN.md.
    Assumptions written into the system: as for C09 (parents named by
    add-version are the nil version or a version that has been latest; ids
    are fresh). *)
From TC Require Import Model.Cloud Proofs.CloudP Proofs.CleanupInvP.

(** (a) A version is deleted as garbage only if its parent has a different
    child on the chain known from [latest]: it lost the race for that parent
    and can never be committed.  Children of [latest] and anything added since
    are never touched. *)
Theorem C10_losers_have_lost : forall rank vers chain p c,
  (p, c) ∈ losers rank vers chain ->
  (exists t, (p, c, t) ∈ vers) /\ exists c', chain_child chain p = Some c' /\ c' <> c.
Proof. exact losers_have_lost. Qed.

(** (b) A snapshot is deleted as redundant only if its version is on the known
    chain strictly before the newest snapshot on that chain. *)
Theorem C10_old_snapshots_are_older : forall l chain snaps s v,
  v ∈ old_snapshots l chain snaps s ->
  v ∈ snaps /\ v ∈ tail (drop_until s (chain_versions l chain)).
Proof. exact old_snapshots_are_older. Qed.

Theorem C10_latest_snapshot_on_chain : forall l chain snaps s,
  latest_snapshot l chain snaps = Some s -> s ∈ snaps /\ s ∈ chain_versions l chain.
Proof. exact latest_snapshot_on_chain. Qed.

(** (c) A version is deleted for its age only if it is older than the
    retention threshold and lies on the known chain (at or before the newest
    on-chain snapshot: the deletions walk backwards from it). *)
Theorem C10_old_versions_are_covered : forall threshold vers chain s p c,
  (p, c) ∈ old_versions threshold vers chain s ->
  (exists t, creation_of vers c = Some t /\ (t < threshold)%N) /\ (c, p) ∈ chain.
Proof. exact old_versions_are_covered. Qed.

(** (d) The invariant holds in every state reachable by any schedule. *)
Theorem C10_invariant_every_schedule : forall rank pagesz threshold (evs : list cev),
  CInv (fold_left (cstep rank pagesz threshold) evs csys0).
Proof. exact CInv_run. Qed.

(** Every chain version from the cut onward is still stored as the child of its
    predecessor. *)
Theorem C10_retained_versions : forall rank pagesz threshold evs k c,
  let s := fold_left (cstep rank pagesz threshold) evs csys0 in
  c_hist s !! k = Some c -> (c_cut s <= k)%nat ->
  exists p pl, c_sub s !! c = Some (p, pl) /\ is_Some (o_vers (c_store s) !! (p, c))
               /\ (forall k', k = S k' -> c_hist s !! k' = Some p) /\ (k = 0%nat -> p = 0%N).
Proof. exact retained_versions. Qed.

(** Versions are only cut off behind a snapshot that is still stored. *)
Theorem C10_cut_is_behind_a_stored_snapshot : forall rank pagesz threshold evs,
  let s := fold_left (cstep rank pagesz threshold) evs csys0 in
  (0 < c_cut s)%nat ->
  exists b kb, c_best s = Some b /\ b ∈ dom (o_snaps (c_store s)) /\ c_hist s !! kb = Some b
               /\ (c_cut s <= S kb)%nat.
Proof. exact cut_is_behind_a_stored_snapshot. Qed.

(** A fresh replica can reconstruct the latest state: all versions are stored,
    or a snapshot of a chain version and all versions after it. *)
Theorem C10_chain_reconstructible : forall rank pagesz threshold evs,
  let s := fold_left (cstep rank pagesz threshold) evs csys0 in
  (c_cut s = 0%nat /\ forall k c, c_hist s !! k = Some c -> exists p pl, c_sub s !! c = Some (p, pl) /\ is_Some (o_vers (c_store s) !! (p, c)))
  \/ exists b kb, b ∈ dom (o_snaps (c_store s)) /\ c_hist s !! kb = Some b
       /\ forall k c, (kb < k)%nat -> c_hist s !! k = Some c ->
            exists p pl, c_sub s !! c = Some (p, pl) /\ is_Some (o_vers (c_store s) !! (p, c)).
Proof. exact chain_reconstructible. Qed.

(** A replica based on a retained version finds the next version. *)
Theorem C10_retained_base_finds_child : forall rank pagesz threshold evs k c c',
  let s := fold_left (cstep rank pagesz threshold) evs csys0 in
  c_hist s !! k = Some c -> c_hist s !! S k = Some c' -> (c_cut s <= S k)%nat ->
  exists pl t, o_vers (c_store s) !! (c, c') = Some (pl, t) /\ c_sub s !! c' = Some (c, pl).
Proof. exact retained_base_finds_child. Qed.

(** What a cleanup deletes as a race loser is not on the chain, and an
    add-version that has lost can no longer swap. *)
Theorem C10_loser_not_on_chain : forall v d, Core v -> loser v d -> d.2 ∉ v_hist v.
Proof. exact loser_not_on_chain. Qed.

Theorem C10_lost_cannot_swap : forall v l, Core v -> lost v l -> v_latest v <> l.
Proof. exact lost_not_latest. Qed.

Print Assumptions C10_losers_have_lost.
Print Assumptions C10_old_snapshots_are_older.
Print Assumptions C10_latest_snapshot_on_chain.
Print Assumptions C10_old_versions_are_covered.
Print Assumptions C10_invariant_every_schedule.
Print Assumptions C10_retained_versions.
Print Assumptions C10_cut_is_behind_a_stored_snapshot.
Print Assumptions C10_chain_reconstructible.
Print Assumptions C10_retained_base_finds_child.
Print Assumptions C10_loser_not_on_chain.
Print Assumptions C10_lost_cannot_swap.
