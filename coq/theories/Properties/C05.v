(** C05 — Local commits are atomic and follow the documented operation model. *)
From TC Require Import Model.TaskDb Proofs.RebaseP Proofs.ApplyP Proofs.CommitP.

(** Batch application through the write cache equals one-at-a-time application
    of the documented rules ([apply]: create makes an empty task unless it
    exists, update edits one property of an existing task, delete removes it,
    operations on missing tasks change nothing), for every stored state, every
    batch -- valid or not -- and every order of the final flush; base version,
    operation log and working set are untouched by it. *)
Theorem C05_apply_operations_spec : forall (keys : list N) (s : store) (ops : list op),
  (forall u, (fold_left apply_cached ops (∅, s)).1 !! u <> None -> u ∈ keys) ->
  st_tasks (apply_operations_with keys s ops) = applyl (st_tasks s) (sync_form ops)
  /\ same_meta s (apply_operations_with keys s ops).
Proof. exact apply_operations_spec. Qed.

(** A commit: tasks as above; the batch is appended, in order and unsynced, to
    the operation log; the base version is unchanged; the working set is only
    extended at its end, by the tasks whose status was turned pending/recurring
    by the batch and that were not in it, each once. *)
Theorem C05_commit_spec : forall (status : N) (is_pr : N -> bool) (s : store) (ops : list op),
  let s' := commit_operations status is_pr s ops in
  st_tasks s' = applyl (st_tasks s) (sync_form ops)
  /\ unsynced s' = unsynced s ++ ops
  /\ st_ops s' = st_ops s ++ map (pair false) ops
  /\ st_base s' = st_base s
  /\ exists added, st_ws s' = st_ws s ++ map Some added
       /\ NoDup added
       /\ (forall u, u ∈ added -> u ∈ omap (adds_to_ws status is_pr) ops /\ Some u ∉ st_ws s)
       /\ (forall u, u ∈ omap (adds_to_ws status is_pr) ops -> Some u ∈ st_ws s').
Proof. exact commit_spec. Qed.

(** At all times the tasks equal the last synchronised state with the
    unsynchronised operations applied: the invariant is kept by every commit. *)
Theorem C05_tasks_are_base_plus_unsynced :
  forall (status : N) (is_pr : N -> bool) (s : store) (ops : list op) (base_state : db),
  st_tasks s = applyl base_state (sync_form (unsynced s)) ->
  let s' := commit_operations status is_pr s ops in
  st_tasks s' = applyl base_state (sync_form (unsynced s')).
Proof.
  intros status is_pr s ops b H. cbn zeta.
  pose proof (commit_spec status is_pr s ops) as (C1 & C2 & _).
  rewrite C1, C2, H. unfold sync_form. rewrite omap_app, applyl_app. reflexivity.
Qed.

Print Assumptions C05_apply_operations_spec.
Print Assumptions C05_commit_spec.
Print Assumptions C05_tasks_are_base_plus_unsynced.
