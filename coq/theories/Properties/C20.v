(** C20 — Expiration purges exactly the long-deleted tasks, everywhere. *)
From TC Require Import Model.Task Model.Rebase Proofs.TaskP Proofs.TransformP Proofs.RebaseP Proofs.ConflictP.
From Coq Require Import Strings.String.

(** Expiring removes precisely the tasks that expire and keeps every other
    task with its content. *)
Theorem C20_expire_exact : forall ts_min ts_max now (tasks : gmap N (gmap (list N) (list N))) u,
  expire_tasks ts_min ts_max now tasks !! u =
  match tasks !! u with
  | Some t => if expires ts_min ts_max now t then None else Some t
  | None => None
  end.
Proof. exact expire_exact. Qed.

(** A task expires iff its status is deleted and its modification time is a
    readable, representable timestamp more than 180 days in the past: pending,
    completed, recently modified tasks and tasks whose modification time is
    missing or unreadable are kept. *)
Theorem C20_expires_iff : forall ts_min ts_max now (t : gmap (list N) (list N)),
  expires ts_min ts_max now t = true <->
  t !! k_status = Some (s2l "deleted")
  /\ exists z, get_timestamp ts_min ts_max t (s2l "modified") = Some z /\ (z < now - 180 * 86400)%Z.
Proof. exact expires_iff. Qed.

(** The purge is recorded as ordinary deletions, and a deletion wins over any
    concurrent update of the task, whichever replica transforms: the update is
    dropped, the deletion is kept -- so a concurrent edit elsewhere does not
    bring the task back. *)
Theorem C20_delete_wins : forall u p v t,
  transform (SDelete u) (SUpdate u p v t) = (Some (SDelete u), None)
  /\ transform (SUpdate u p v t) (SDelete u) = (None, Some (SDelete u)).
Proof. intros. cbn. rewrite N.eqb_refl. auto. Qed.

(** With two replicas, the converged state is the same whichever synchronises
    first (C03), and on the chain the deletion is never followed by an update
    of that task that survives: in chain order the task is absent afterwards. *)
Theorem C20_deleted_stays_deleted : forall (s : db) u l,
  (forall o, In o l -> exists p v t, o = SUpdate u p v t) ->
  applyl (apply s (SDelete u)) l !! u = None.
Proof.
  intros s u l. revert s. induction l as [|o l IH]; intros s H; cbn [applyl fold_left].
  - cbn. apply lookup_delete.
  - destruct (H o (or_introl eq_refl)) as (p & v & t & ->).
    assert (apply (apply s (SDelete u)) (SUpdate u p v t) = apply s (SDelete u)) as ->.
    { cbn. rewrite lookup_delete. reflexivity. }
    apply IH. intros o Ho. apply H. right. exact Ho.
Qed.

Print Assumptions C20_expire_exact.
Print Assumptions C20_expires_iff.
Print Assumptions C20_delete_wins.
Print Assumptions C20_deleted_stays_deleted.
