#!/bin/sh
# usage: goal.sh theories/X/Y.v LINE  -- show the proof state after LINE
f=$1; n=$2
d=$(dirname "$f"); b=$(basename "$f" .v)
t="$d/Tmp_goal_$$.v"
head -n "$n" "$f" > "$t"; printf '\nShow.\n' >> "$t"
coqc -Q theories TC -w -notation-overridden "$t" 2>&1 | grep -v "Attempt to save\|^$" | head -${3:-60}
rm -f "$d/Tmp_goal_$$".* "$d/.Tmp_goal_$$".*
