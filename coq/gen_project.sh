#!/bin/sh
# regenerate _CoqProject's file list and the Makefile
cd "$(dirname "$0")"
{ echo "-Q theories TC"; echo "-arg -w -arg -notation-overridden,-deprecated-hint-without-locality,-ambiguous-paths,-redundant-canonical-projection,-deprecated-instance-without-locality"; find theories -name '*.v' | grep -v -f exclude.txt | sort; } > _CoqProject
coq_makefile -f _CoqProject -o Makefile >/dev/null
